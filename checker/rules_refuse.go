package main

import (
	"fmt"
	"go/token"
	"go/types"
	"sort"

	"golang.org/x/tools/go/ssa"
)

// ---------------------------------------------------------------- R-REFUSE-EXACT
//
// The retry templates of R-LOOPS-DECODER (T-RETRY a, b) and the acceptance argument of C07 lean on a premise about
// the all-or-nothing writers of DecoderBuffer that no other rule states: they answer ErrFullBuffer only when the
// request really does not fit, that is when need + len(Data) > BufferSize with the length and the capacity as they
// are at that point (after the compaction attempt). A test that is off by one (≥ for >), or one that uses a length
// or a BufferSize captured before the compaction, refuses a request that fits exactly: Decoder.Write has clamped its
// request to BufferSize − WindowSize, which is exactly what a complete drain leaves free, so the loop spins (C06),
// and WriteBlock hands a valid sequence back as ErrFullBuffer (C07).
//
// Decided per origin of ErrFullBuffer in a method of DecoderBuffer: the branch conditions that lead there, together
// with the hypothesis  need + L ≤ B, are contradictory (linear facts prover).  L is the value of len(Data) at the
// origin: a load that dominates it with no writer of Data in between, or a load before the dominating compaction
// call minus that call's result (the contract R-SHRINK-SAFE establishes: Data is re-sliced to the copied count and
// the discarded count — or 0 — is returned).  B is a load of BufferSize that dominates the origin with no writer in
// between (the compaction call is a writer: it adopts cap(Data)).  need is fixed by the method's signature:
// one byte → 1, a byte slice → its length, (m, o) → m, a Block → LitLen + MatchLen of the sequence inside the loop
// over the sequences and len(Literals) behind it.

func init() {
	reg(&Rule{ID: "R-REFUSE-EXACT", Min: 10,
		Doc: "DecoderBuffer's writers answer ErrFullBuffer only when the request does not fit: at every origin of ErrFullBuffer the branch conditions contradict need + len(Data) ≤ BufferSize for the length and capacity current at that point (after the compaction attempt)",
		Run: ruleRefuseExact})
}

// currentLoads: loads of a field accepted by match that dominate x with no writer of the field between
// the load and x: each of them has the value the field has at x.
func (fi *FuncInfo) currentLoads(x ssa.Instruction, match func(f *types.Var, ld *ssa.UnOp) bool) []*ssa.UnOp {
	fi.computeWriters()
	var out []*ssa.UnOp
	for _, b := range fi.fn.Blocks {
		for _, in := range b.Instrs {
			ld, ok := in.(*ssa.UnOp)
			if !ok || ld.Op != token.MUL {
				continue
			}
			f := fieldOfAddr(ld.X)
			if f == nil || !match(f, ld) {
				continue
			}
			if !fi.instrDominates(ld, x) {
				continue
			}
			if fi.writerBetween(ld, x, fi.writers[f]) {
				continue
			}
			out = append(out, ld)
		}
	}
	return out
}

func (fi *FuncInfo) instrDominates(a, b ssa.Instruction) bool {
	if a.Block() == b.Block() {
		return fi.instrIx[a] < fi.instrIx[b]
	}
	return a.Block().Dominates(b.Block())
}

func ruleRefuseExact(c *Ctx) {
	db := c.decBuf()
	fns := c.methodsOf(db)
	sort.Slice(fns, func(i, j int) bool { return fns[i].Name() < fns[j].Name() })
	for _, fn := range fns {
		if fn.Blocks == nil {
			continue
		}
		fi := c.info(fn)
		fi.computeWriters()
		n := 0
		for _, b := range fn.Blocks {
			for _, in := range b.Instrs {
				u, ok := in.(*ssa.UnOp)
				if !ok || errGlobalName(u) != "ErrFullBuffer" {
					continue
				}
				n++
				key := fmt.Sprintf("%s:refusal#%d", fnName(fn), n)
				c.refusalExact(fi, u, key)
			}
		}
	}
}

func (c *Ctx) refusalExact(fi *FuncInfo, x *ssa.UnOp, key string) {
	type way struct {
		at    ssa.Instruction
		conds []Cond
		extra []Fact
		post  []*ssa.UnOp
	}
	ways := []way{{at: x, conds: fi.condsAt(x.Block())}}
	// a refusal decided by a boolean that is merged from several ways (ok := fits || fitsAfterCompaction, the
	// single-exit form of an inlined helper): one way per incoming edge on which the flag can have the deciding value
	expand := func(w way, i int) []way {
		u := unNot(w.conds[i])
		ph, isPhi := u.V.(*ssa.Phi)
		if !isPhi || !isBool(ph.Type()) || !(ph.Block() == w.at.Block() || ph.Block().Dominates(w.at.Block())) {
			return nil
		}
		// only a flag that is tested right where it is merged decides the refusal on its own; conditions and
		// reads between an earlier merge and the refusal would be lost by moving the view point in front of it
		if ph.Block() != w.at.Block() {
			iff, isIf := ph.Block().Instrs[len(ph.Block().Instrs)-1].(*ssa.If)
			if !isIf || unNot(Cond{iff.Cond, true}).V != ssa.Value(ph) {
				return nil
			}
			if !(len(w.at.Block().Preds) == 1 && w.at.Block().Preds[0] == ph.Block()) {
				return nil
			}
		}
		rest := append(append([]Cond{}, w.conds[:i]...), w.conds[i+1:]...)
		var out []way
		for ei, e := range ph.Edges {
			p := ph.Block().Preds[ei]
			if k, isK := e.(*ssa.Const); isK {
				if (k.Value != nil && k.Value.String() == "true") != u.True {
					continue // this edge cannot give the flag the deciding value
				}
				cs := append(append([]Cond{}, rest...), fi.condsAt(p)...)
				cs = append(cs, fi.edgeConds(p, ph.Block())...)
				out = append(out, way{at: p.Instrs[len(p.Instrs)-1], conds: cs})
				continue
			}
			cs := append(append([]Cond{}, rest...), fi.condsAt(p)...)
			cs = append(cs, fi.edgeConds(p, ph.Block())...)
			cs = append(cs, Cond{e, u.True})
			out = append(out, way{at: p.Instrs[len(p.Instrs)-1], conds: cs})
		}
		return out
	}
	var allAttempted, allOK bool
	var okMsg, failMsg string
	decide := func(ws []way) {
		allAttempted, allOK, okMsg, failMsg = true, true, "", ""
		for _, w := range ws {
			att, ok, msg := c.refusalWay(fi, x, w.at, w.conds, w.extra, w.post)
			if !att {
				allAttempted = false
			}
			if ok {
				okMsg = msg
			} else {
				allOK = false
				if failMsg == "" {
					failMsg = msg
				}
			}
		}
	}
	decide(ways)
	if !(allAttempted && allOK) {
		a0, o0, om0, fm0 := allAttempted, allOK, okMsg, failMsg
		for i := len(ways[0].conds) - 1; i >= 0; i-- {
			ws := expand(ways[0], i)
			if len(ws) == 0 {
				continue
			}
			decide(ws)
			if allAttempted && allOK {
				ways = ws
				break
			}
		}
		if !(allAttempted && allOK) {
			allAttempted, allOK, okMsg, failMsg = a0, o0, om0, fm0
		}
	}
	if !(allAttempted && allOK) && len(ways) == 1 {
		// the test that decides the refusal stands behind a merge (if g > B { g -= shrink(g) }; if g > B { refuse }):
		// one way per edge into the nearest merge; the conditions established behind the merge are restated with
		// the φs replaced by the edge's values, a field read behind the merge equals what this way last read of it,
		// and a way whose conditions are contradictory does not exist
		m := x.Block()
		for m != nil && len(m.Preds) < 2 {
			m = m.Idom()
		}
		if m != nil {
			fi.computeWriters()
			postConds := condsMinus(fi.condsAt(x.Block()), fi.condsAt(m))
			var postLoads []*ssa.UnOp
			for _, b := range fi.fn.Blocks {
				if !(b == m || m.Dominates(b)) || !(b == x.Block() || b.Dominates(x.Block())) {
					continue
				}
				for _, in := range b.Instrs {
					ld, isLd := in.(*ssa.UnOp)
					if !isLd || ld.Op != token.MUL || !fi.instrDominates(ld, x) {
						continue
					}
					f := fieldOfAddr(ld.X)
					if f == nil {
						continue
					}
					if _, okp := recvPath(fi.fn, ld.X); !okp {
						continue
					}
					if fi.writerBetween(m.Instrs[0], ld, fi.writers[f]) || fi.writerBetween(ld, x, fi.writers[f]) {
						continue
					}
					postLoads = append(postLoads, ld)
				}
			}
			var split []way
			for pi, p := range m.Preds {
				w := way{at: p.Instrs[len(p.Instrs)-1], post: postLoads}
				w.conds = append(append([]Cond{}, fi.condsAt(p)...), fi.edgeConds(p, m)...)
				for _, f := range fi.factsOf(postConds) {
					l := f.L
					for _, in := range m.Instrs {
						ph, isPhi := in.(*ssa.Phi)
						if !isPhi {
							break
						}
						if co, has := l.t[ph.Name()]; has && co != 0 {
							l = l.sub(linAtom(ph.Name()).scale(co)).add(fi.lin(ph.Edges[pi]).scale(co))
						}
					}
					w.extra = append(w.extra, Fact{l, f.Op})
				}
				for _, ld := range postLoads {
					f := fieldOfAddr(ld.X)
					_, pth, _ := recvPath2(fi.fn, ld.X)
					for _, cur := range fi.currentLoads(w.at, func(f2 *types.Var, l2 *ssa.UnOp) bool {
						_, p2, ok2 := recvPath2(fi.fn, l2.X)
						return f2 == f && ok2 && p2 == pth
					}) {
						if isByteSlice(ld.Type()) {
							w.extra = append(w.extra, Fact{fi.lenOf(ld).sub(fi.lenOf(cur)), EQ})
						} else if isIntType(ld.Type()) {
							w.extra = append(w.extra, Fact{fi.lin(ld).sub(fi.lin(cur)), EQ})
						}
					}
				}
				// a contradictory way is no way
				if fi.proveLE0(linConst(1), w.conds, w.extra, map[string]bool{}, 0) {
					continue
				}
				split = append(split, w)
			}
			if len(split) > 0 {
				a0, o0, om0, fm0 := allAttempted, allOK, okMsg, failMsg
				decide(split)
				if allAttempted && allOK {
					ways = split
				} else {
					allAttempted, allOK, okMsg, failMsg = a0, o0, om0, fm0
				}
			}
		}
	}
	if len(ways) > 1 {
		okMsg += fmt.Sprintf(" (on each of the %d ways the deciding flag gets its value)", len(ways))
	}
	c.check(allAttempted, key+":after-compaction", x.Pos(), "the refusal follows an attempt to make room (a call reaching the compaction function lies on every way to it)",
		"ErrFullBuffer is answered without an attempt to make room: no call that reaches the compaction function lies on every way to this return, so space freed by a drain is never reclaimed and the Decoder's retry loop spins")
	c.check(allOK, key, x.Pos(), okMsg, failMsg)
}

// refusalWay decides the claim for one way into the refusal: at is the last point of that way (dominance and
// "current" loads are taken relative to it), conds the conditions that hold on it. Returns whether an attempt to
// make room lies on the way, whether the refusal is exact, and the text for the obligation.
func (c *Ctx) refusalWay(fi *FuncInfo, x *ssa.UnOp, at ssa.Instruction, conds []Cond, extra []Fact, post []*ssa.UnOp) (attempted bool, ok bool, msg string) {
	fn := fi.fn
	db := c.decBuf()
	isRecvField := func(name string) func(f *types.Var, ld *ssa.UnOp) bool {
		return func(f *types.Var, ld *ssa.UnOp) bool {
			if f.Name() != name {
				return false
			}
			p, ok := recvPath(fn, ld.X)
			return ok && lastField(p) == name
		}
	}
	_ = db
	// need
	var needs []Lin
	needDoc := ""
	params := fn.Params[1:]
	inSeqLoop := false
	for _, l := range fi.loops {
		if l.Blocks[at.Block()] {
			inSeqLoop = true
		}
	}
	isByte := func(t types.Type) bool {
		bt, ok := t.Underlying().(*types.Basic)
		return ok && bt.Kind() == types.Uint8
	}
	switch {
	case len(params) == 1 && isByte(params[0].Type()):
		needs = append(needs, linConst(1))
		needDoc = "1"
	case len(params) == 1 && isByteSlice(params[0].Type()):
		needs = append(needs, fi.lenOf(params[0]))
		needDoc = "len(" + params[0].Name() + ")"
	case len(params) == 2 && isIntType(params[0].Type()) && isIntType(params[1].Type()):
		needs = append(needs, fi.lin(params[0]))
		needDoc = params[0].Name()
	case len(params) == 1 && isNamedStruct(params[0].Type(), "Block"):
		// inside an iteration over the sequences the fields of the current sequence are loaded on the way
		// here; behind the loop (which may run zero times) no such load dominates
		lits0 := fi.currentLoads(at, func(f *types.Var, ld *ssa.UnOp) bool { return f.Name() == "LitLen" })
		mats0 := fi.currentLoads(at, func(f *types.Var, ld *ssa.UnOp) bool { return f.Name() == "MatchLen" })
		if len(lits0) > 0 && len(mats0) > 0 {
			inSeqLoop = true
		}
		// … or the sequence was copied into a local as a whole on the way here (the loop variable), which is never
		// written field by field: its field atoms are the current sequence
		for _, b := range fn.Blocks {
			for _, in := range b.Instrs {
				st, ok := in.(*ssa.Store)
				if !ok {
					continue
				}
				al, isA := st.Addr.(*ssa.Alloc)
				if !isA || !isNamedStruct(al.Type().(*types.Pointer).Elem(), "Seq") || !fi.instrDominates(st, at) {
					continue
				}
				partial := false
				for _, r := range *al.Referrers() {
					if fa, isFA := r.(*ssa.FieldAddr); isFA && fa.Referrers() != nil {
						for _, u := range *fa.Referrers() {
							if ld2, isLd := u.(*ssa.UnOp); !isLd || ld2.Op != token.MUL {
								partial = true
							}
						}
					}
				}
				if partial {
					continue
				}
				inSeqLoop = true
				needs = append(needs, linAtom(rootName(al)+".LitLen").add(linAtom(rootName(al)+".MatchLen")))
			}
		}
		if inSeqLoop {
			lits := fi.currentLoads(at, func(f *types.Var, ld *ssa.UnOp) bool { return f.Name() == "LitLen" })
			mats := fi.currentLoads(at, func(f *types.Var, ld *ssa.UnOp) bool { return f.Name() == "MatchLen" })
			for _, a := range lits {
				for _, m := range mats {
					ra, pa, oka := pathStr(a.X)
					rm, pm, okm := pathStr(m.X)
					if oka && okm && ra == rm && trimLast(pa) == trimLast(pm) {
						needs = append(needs, fi.lin(a).add(fi.lin(m)))
					}
				}
			}
			needDoc = "LitLen + MatchLen of the sequence"
		} else {
			for _, ld := range fi.currentLoads(at, func(f *types.Var, ld *ssa.UnOp) bool { return f.Name() == "Literals" }) {
				needs = append(needs, fi.lenOf(ld))
			}
			needDoc = "len(Literals)"
		}
	}
	if len(needs) == 0 {
		return false, false, fmt.Sprintf("the size of the request refused here is not recognised (signature of %s)", fn.Name())
	}
	// L: current length of Data
	var lens []Lin
	for _, ld := range fi.currentLoads(at, isRecvField("Data")) {
		lens = append(lens, fi.lenOf(ld))
	}
	// … or a length read before the dominating compaction call, minus what the call discarded
	for _, b := range fn.Blocks {
		for _, in := range b.Instrs {
			call, ok := in.(*ssa.Call)
			if !ok || call.Call.StaticCallee() == nil || !c.isCompactor(call.Call.StaticCallee()) {
				continue
			}
			if !fi.instrDominates(call, at) {
				continue
			}
			var res ssa.Value
			if isIntType(call.Type()) {
				res = call
			} else if refs := call.Referrers(); refs != nil {
				for _, r := range *refs {
					if ex, isEx := r.(*ssa.Extract); isEx && isIntType(ex.Type()) && res == nil {
						res = ex
					}
				}
			}
			if res == nil {
				continue
			}
			// no other writer of Data between the call and x
			var others []ssa.Instruction
			var dataVar *types.Var
			for f, ws := range fi.writers {
				if f.Name() == "Data" && isFieldOf(db, f) {
					dataVar = f
					for _, w := range ws {
						if w != ssa.Instruction(call) {
							others = append(others, w)
						}
					}
				}
			}
			if dataVar == nil || fi.writerBetween(call, at, others) {
				continue
			}
			for _, ld := range fi.currentLoads(call, isRecvField("Data")) {
				lens = append(lens, fi.lenOf(ld).sub(fi.lin(res)))
			}
		}
	}
	var caps []Lin
	for _, ld := range fi.currentLoads(at, isRecvField("BufferSize")) {
		caps = append(caps, fi.lin(ld))
	}
	// loads behind the merge this way leads into (still current at the refusal)
	for _, ld := range post {
		if f := fieldOfAddr(ld.X); f != nil {
			if isRecvField("Data")(f, ld) {
				lens = append(lens, fi.lenOf(ld))
			}
			if isRecvField("BufferSize")(f, ld) {
				caps = append(caps, fi.lin(ld))
			}
		}
	}
	// a refusal is only final after the attempt to make room: a call that reaches the compaction function lies on
	// every way here (the retry loops drain and call again; without the attempt the drained space is never reclaimed)
	for _, b := range fn.Blocks {
		for _, in := range b.Instrs {
			call, ok := in.(*ssa.Call)
			if !ok || call.Call.StaticCallee() == nil || !fi.instrDominates(call, at) {
				continue
			}
			for g := range c.reachable(call.Call.StaticCallee()) {
				if c.isCompactor(g) {
					attempted = true
				}
			}
		}
	}
	// the decision may have been made by the compaction function itself, which then reports "fits now" in a
	// boolean result: the same claim is decided at its returns
	for _, cd := range conds {
		cd = unNot(cd)
		ex, isEx := cd.V.(*ssa.Extract)
		if !isEx || cd.True {
			continue
		}
		call, isCall := ex.Tuple.(*ssa.Call)
		if !isCall || call.Call.StaticCallee() == nil || !c.isCompactor(call.Call.StaticCallee()) || !fi.instrDominates(call, at) {
			continue
		}
		if why := c.calleeDecides(fi, call, ex.Index, needs); why != "" {
			return attempted, false, fmt.Sprintf("the flag of %s decides the refusal: %s", call.Call.StaticCallee().Name(), why)
		}
		return attempted, true, fmt.Sprintf("refused only when %s reports that the request does not fit, and its flag is false only when %s + len(Data) > BufferSize at its return", call.Call.StaticCallee().Name(), needDoc)
	}
	if len(lens) == 0 || len(caps) == 0 {
		return attempted, false, "ErrFullBuffer is answered here without a test against the current len(Data) and BufferSize (no value of them that is still current at this point is read: a test made before the compaction attempt is stale)"
	}
	for _, nd := range needs {
		for _, l := range lens {
			for _, bs := range caps {
				hyp := append([]Fact{{nd.add(l).sub(bs), LE}}, extra...)
				if fi.proveLE0(linConst(1), conds, hyp, map[string]bool{}, 0) {
					return attempted, true, fmt.Sprintf("refused only when the request does not fit: the conditions of this return contradict %s + %s ≤ %s", nd, l, bs)
				}
			}
		}
	}
	// the all-or-nothing writers behind an unconditional retry loop (one byte, one slice): it is enough that a
	// request which fits on entry is never refused — a refusal right after the compaction costs the loop one more
	// round (the next call finds the compacted buffer on entry), not its termination
	if len(params) == 1 && (isByte(params[0].Type()) || isByteSlice(params[0].Type())) {
		var lens0, caps0 []Lin
		for _, b := range fn.Blocks {
			for _, in := range b.Instrs {
				ld, ok := in.(*ssa.UnOp)
				if !ok || ld.Op != token.MUL || fi.version(ld) != "" {
					continue
				}
				f := fieldOfAddr(ld.X)
				if f == nil {
					continue
				}
				if isRecvField("Data")(f, ld) {
					lens0 = append(lens0, fi.lenOf(ld))
				}
				if isRecvField("BufferSize")(f, ld) {
					caps0 = append(caps0, fi.lin(ld))
				}
			}
		}
		for _, nd := range needs {
			for _, l := range lens0 {
				for _, bs := range caps0 {
					hyp := append([]Fact{{nd.add(l).sub(bs), LE}}, extra...)
					if fi.proveLE0(linConst(1), conds, hyp, map[string]bool{}, 0) {
						return attempted, true, fmt.Sprintf("a request that fits on entry is never refused: the conditions of this return contradict %s + %s ≤ %s (values on entry)", nd, l, bs)
					}
				}
			}
		}
	}
	return attempted, false, fmt.Sprintf("ErrFullBuffer can be answered here although the request fits (need = %s, the branch conditions do not contradict need + len(Data) ≤ BufferSize for the current length and capacity): Decoder.Write clamps its request to exactly what a complete drain frees and retries on ErrFullBuffer, so a refusal of a request that fits makes it spin; WriteBlock hands a valid sequence back as an error", needDoc)
}

// recvPath2 is recvPath with a uniform three-value result.
func recvPath2(fn *ssa.Function, v ssa.Value) (ssa.Value, string, bool) {
	p, ok := recvPath(fn, v)
	return nil, p, ok
}

func trimLast(p string) string {
	for i := len(p) - 1; i >= 0; i-- {
		if p[i] == '.' {
			return p[:i]
		}
	}
	return ""
}

func isNamedStruct(t types.Type, name string) bool {
	n, ok := t.(*types.Named)
	return ok && n.Obj().Name() == name && n.Obj().Pkg() != nil && n.Obj().Pkg().Path() == lzPath
}

// calleeDecides: the boolean result idx of the compaction call decides the refusal in the caller. The request
// handed over is the caller's need (additional bytes) or need + len(Data) (total wanted); in the callee, at every
// return, result idx must be true whenever need + len(Data) ≤ BufferSize for the values current at that return.
// Returns "" or the reason.
func (c *Ctx) calleeDecides(fi *FuncInfo, call *ssa.Call, idx int, needs []Lin) string {
	g := call.Call.StaticCallee()
	gi := c.info(g)
	gi.computeWriters()
	if len(call.Call.Args) != 2 || len(g.Params) != 2 {
		return "the compaction function does not take one request parameter"
	}
	arg := fi.lin(call.Call.Args[1])
	// which form does the caller pass?
	form := ""
	for _, nd := range needs {
		if arg.eq(nd) {
			form = "extra"
		}
		for _, ld := range fi.currentLoads(call, func(f *types.Var, ld *ssa.UnOp) bool {
			p, ok := recvPath(fi.fn, ld.X)
			return ok && f.Name() == "Data" && lastField(p) == "Data"
		}) {
			if arg.eq(nd.add(fi.lenOf(ld))) {
				form = "total"
			}
		}
	}
	if form == "" {
		return fmt.Sprintf("the request passed (%s) is neither the need nor the need plus the current len(Data)", arg)
	}
	recvField := func(name string) func(f *types.Var, ld *ssa.UnOp) bool {
		return func(f *types.Var, ld *ssa.UnOp) bool {
			p, ok := recvPath(g, ld.X)
			return ok && f.Name() == name && lastField(p) == name
		}
	}
	need := gi.lin(g.Params[1])
	if form == "total" {
		// need = request − len(Data) on entry
		var entry *Lin
		for _, b := range g.Blocks {
			for _, in := range b.Instrs {
				if ld, ok := in.(*ssa.UnOp); ok && ld.Op == token.MUL && recvField("Data")(fieldOfAddr(ld.X), ld) && gi.version(ld) == "" {
					l := gi.lenOf(ld)
					entry = &l
				}
			}
		}
		if entry == nil {
			return "the compaction function does not read len(Data) on entry, so a total request cannot be compared with what fits"
		}
		need = need.sub(*entry)
	}
	nret := 0
	for _, b := range g.Blocks {
		r, ok := b.Instrs[len(b.Instrs)-1].(*ssa.Return)
		if !ok || idx >= len(r.Results) {
			continue
		}
		nret++
		rv := r.Results[idx]
		if k, isK := rv.(*ssa.Const); isK {
			if k.Value != nil && k.Value.String() == "true" {
				continue
			}
		}
		var lens, caps []Lin
		for _, ld := range gi.currentLoads(r, recvField("Data")) {
			lens = append(lens, gi.lenOf(ld))
		}
		for _, ld := range gi.currentLoads(r, recvField("BufferSize")) {
			caps = append(caps, gi.lin(ld))
		}
		proved := false
		conds := append(append([]Cond{}, gi.condsAt(b)...), Cond{rv, false})
		for _, l := range lens {
			for _, bs := range caps {
				if gi.proveLE0(linConst(1), conds, []Fact{{need.add(l).sub(bs), LE}}, map[string]bool{}, 0) {
					proved = true
				}
			}
		}
		if !proved {
			return fmt.Sprintf("at %s the flag can be false although the request fits (it is not implied by %s + len(Data) ≤ BufferSize for the values current at that return)", c.pos(r.Pos()), need)
		}
	}
	if nret == 0 {
		return "no return found"
	}
	return ""
}
