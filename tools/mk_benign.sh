#!/bin/bash
# usage: mk_benign.sh <prop> — scratch worktree /tmp/wt/B<prop> + /tmp/wt/B<prop>-out/{property.json,prompt.txt}
# for a sub-agent asked for behaviour-preserving refactorings (false-alarm test set).
P=$1
mkdir -p /tmp/wt/B$P-out
git -C /repo worktree add -q --detach /tmp/wt/B$P HEAD || exit 2
python3 - "$P" <<'PY'
import json,sys
p=sys.argv[1]
for l in open('/verif/properties.jsonl'):
    d=json.loads(l)
    if d['id']==p:
        json.dump(d,open('/tmp/wt/B%s-out/property.json'%p,'w'),indent=1)
        text='%s — %s\n\n%s'%(d['id'],d['title'],d['statement'])
        t=open('/verif/tools/benign_prompt.tmpl').read().replace('@P@',p).replace('@TEXT@',text)
        open('/tmp/wt/B%s-out/prompt.txt'%p,'w').write(t)
PY
