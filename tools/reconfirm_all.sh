#!/bin/bash
# usage: reconfirm_all.sh — re-confirm every stored change against /repo HEAD in scratch copies (outside /repo and /verif):
# seeded: demo passes on the clean tree and fails with the patch; benign: equivalence test passes on both.
# Prints one line per entry whose expectation does not hold.
export GOFLAGS=-mod=mod GOPROXY=off GOSUMDB=off GOTOOLCHAIN=local
BASE=/tmp/wt/rc-base
rm -rf $BASE; mkdir -p $BASE && (cd /repo && git archive HEAD | tar -x -C $BASE) || exit 2
one() {
  d=$1; id=$(basename $d); kind=$(basename $(dirname $d))
  T=/tmp/wt/rc-$kind-$id
  rm -rf $T; cp -r $BASE $T
  tf=$d/demo_test.go; [ $kind = benign ] && tf=$d/equiv_test.go
  [ -f $tf ] || { echo "$kind/$id: no test"; rm -rf $T; return; }
  dir=.; grep -q '^package suffix' $tf && dir=suffix
  cp $tf $T/$dir/zz_rc_test.go
  name=$(grep -o '^func Test[A-Za-z0-9_]*' $tf | sed 's/func //' | paste -sd'|')
  (cd $T/$dir && timeout 600 go test -vet=off -count=1 -timeout 300s -run "^($name)\$" . >/tmp/wt/rc-$kind-$id.clean 2>&1) && c=pass || c=fail
  (cd $T && (git apply $d/patch.diff 2>/dev/null || patch -p1 --fuzz=3 -s < $d/patch.diff >/dev/null 2>&1)) || { echo "$kind/$id: PATCH DOES NOT APPLY"; rm -rf $T; return; }
  (cd $T && go build ./... >/dev/null 2>&1) || { echo "$kind/$id: DOES NOT BUILD"; rm -rf $T; return; }
  (cd $T/$dir && timeout 600 go test -vet=off -count=1 -timeout 300s -run "^($name)\$" . >/tmp/wt/rc-$kind-$id.patched 2>&1) && p=pass || p=fail
  rm -rf $T
  if [ $kind = seeded ]; then [ $c = pass ] && [ $p = fail ] || echo "seeded/$id: clean=$c patched=$p"; else [ $c = pass ] && [ $p = pass ] || echo "benign/$id: clean=$c patched=$p"; fi
}
N=0
for d in /verif/seeded/C*/ /verif/benign/C*/; do one ${d%/} & N=$((N+1)); [ $((N % 8)) -eq 0 ] && wait; done; wait
rm -rf $BASE
echo "reconfirm_all: $N entries checked"
