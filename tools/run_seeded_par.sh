#!/bin/bash
# usage: run_seeded_par.sh [seeded/<id> ...]   (default: all)
# Applies each seeded mutant to a scratch worktree of /repo's HEAD, runs all claimed quick checks
# (no evidence written), and records which checks fire in seeded/<id>/meta.json
# (detected_by_checks / detected_by_rules); seeded/RESULTS.md is regenerated from all meta files.
cd /verif
run_one() {
  d=${1%/}
  id=$(basename $d)
  out=$(TRIAL_DIR=/tmp/wt/trial-$id ./tools/try_mutant.sh $d/patch.diff 2>&1)
  fired=$(echo "$out" | grep '^FIRED:' | sed 's/FIRED://')
  rules=$(echo "$out" | grep -o 'R-[A-Z0-9-]*[A-Z0-9]' | sort -u | paste -sd' ')
  python3 - "$d" "$fired" "$rules" <<'PY'
import json,sys
d,fired,rules=sys.argv[1],sys.argv[2].split(),sys.argv[3].split()
m=json.load(open(d+"/meta.json")); m["detected_by_checks"]=fired; m["detected_by_rules"]=rules
m["what_was_run"]="tools/try_mutant.sh %s/patch.diff: patch applied to a scratch worktree of /repo HEAD (outside /repo and /verif), go build, quick check of every claimed property with -no-evidence, worktree removed"%d
json.dump(m,open(d+"/meta.json","w"),indent=1)
PY
  echo "$id: ${fired:-MISSED}"
}
LIST="$@"
[ -z "$LIST" ] && LIST=$(ls -d seeded/C*/)
# entries run in parallel (JOBS, default 10), each in its own scratch worktree
echo $LIST | tr ' ' '\n' | xargs -P ${JOBS:-10} -I{} ./tools/run_seeded_one.sh {}
python3 - <<'PY'
import json,glob,os,re
rows=[]
for f in sorted(glob.glob('/verif/seeded/C*/meta.json'), key=lambda p:(re.findall(r'C\d+',p)[0], int(re.findall(r'-(\d+)/',p)[0]))):
    m=json.load(open(f)); id=os.path.basename(os.path.dirname(f))
    fired=m.get("detected_by_checks")
    if fired is None: continue
    rows.append("| %s | %s | %s | %s |"%(id, m["property"], " ".join(fired) if fired else "MISSED", " ".join(m.get("detected_by_rules",[]))))
open('/verif/seeded/RESULTS.md','w').write("| mutant | seeded for | checks that fire | rules |\n|---|---|---|---|\n"+"\n".join(rows)+"\n")
print(len(rows),"rows")
PY
