module mutsweep

go 1.22
