// mutsweep enumerates small syntactic mutants of the non-test sources of a Go tree: relational operator
// boundary changes, ±1 on small integer literals next to + and -, and deletion of simple statements. Each mutant
// is written as <out>/<id>/{file (full text), meta.json}. It is a generator only; tools/mutsweep.sh builds each
// mutant in a scratch copy, drops those the pinned tests kill and runs the checks on the survivors. Used to look
// for gaps in the rules (DESIGN 7.10); nothing it produces takes part in a check.
package main

import (
	"bytes"
	"encoding/json"
	"fmt"
	"go/ast"
	"go/parser"
	"go/printer"
	"go/token"
	"os"
	"path/filepath"
	"strings"
)

type meta struct {
	ID   string `json:"id"`
	File string `json:"file"`
	Line int    `json:"line"`
	Func string `json:"func"`
	Kind string `json:"kind"`
	Desc string `json:"desc"`
}

func main() {
	repo, out := os.Args[1], os.Args[2]
	files := os.Args[3:]
	n := 0
	for _, rel := range files {
		path := filepath.Join(repo, rel)
		src, err := os.ReadFile(path)
		if err != nil {
			panic(err)
		}
		// count sites first with one parse, then re-parse per mutant (simple and safe)
		fset := token.NewFileSet()
		f, err := parser.ParseFile(fset, path, src, parser.ParseComments)
		if err != nil {
			panic(err)
		}
		sites := collect(fset, f)
		for si := range sites {
			fset2 := token.NewFileSet()
			f2, _ := parser.ParseFile(fset2, path, src, parser.ParseComments)
			s2 := collect(fset2, f2)
			if len(s2) != len(sites) {
				panic("site count differs")
			}
			for vi := 0; vi < s2[si].variants; vi++ {
				fset3 := token.NewFileSet()
				f3, _ := parser.ParseFile(fset3, path, src, parser.ParseComments)
				s3 := collect(fset3, f3)
				desc := s3[si].apply(vi)
				if desc == "" {
					continue
				}
				var buf bytes.Buffer
				if err := (&printer.Config{Mode: printer.UseSpaces | printer.TabIndent, Tabwidth: 8}).Fprint(&buf, fset3, f3); err != nil {
					continue
				}
				n++
				id := fmt.Sprintf("m%04d", n)
				dir := filepath.Join(out, id)
				os.MkdirAll(filepath.Join(dir, filepath.Dir(rel)), 0o755)
				os.WriteFile(filepath.Join(dir, rel), buf.Bytes(), 0o644)
				m := meta{ID: id, File: rel, Line: s3[si].line, Func: s3[si].fn, Kind: s3[si].kind, Desc: desc}
				b, _ := json.MarshalIndent(m, "", " ")
				os.WriteFile(filepath.Join(dir, "meta.json"), b, 0o644)
			}
		}
	}
	fmt.Printf("%d mutants\n", n)
}

type site struct {
	line     int
	fn       string
	kind     string
	variants int
	apply    func(v int) string
}

func collect(fset *token.FileSet, f *ast.File) []site {
	var sites []site
	for _, d := range f.Decls {
		fd, ok := d.(*ast.FuncDecl)
		if !ok || fd.Body == nil {
			continue
		}
		name := fd.Name.Name
		if fd.Recv != nil && len(fd.Recv.List) == 1 {
			var b bytes.Buffer
			printer.Fprint(&b, fset, fd.Recv.List[0].Type)
			name = "(" + b.String() + ")." + name
		}
		expr := func(e ast.Expr) string {
			var b bytes.Buffer
			printer.Fprint(&b, fset, e)
			s := b.String()
			if len(s) > 80 {
				s = s[:80] + "…"
			}
			return strings.ReplaceAll(s, "\n", " ")
		}
		ast.Inspect(fd.Body, func(n ast.Node) bool {
			switch x := n.(type) {
			case *ast.BinaryExpr:
				var alts []token.Token
				switch x.Op {
				case token.LSS:
					alts = []token.Token{token.LEQ}
				case token.LEQ:
					alts = []token.Token{token.LSS}
				case token.GTR:
					alts = []token.Token{token.GEQ}
				case token.GEQ:
					alts = []token.Token{token.GTR}
				case token.EQL:
					alts = []token.Token{token.NEQ}
				case token.NEQ:
					alts = []token.Token{token.EQL}
				}
				if len(alts) > 0 {
					bx := x
					before := expr(bx)
					sites = append(sites, site{fset.Position(x.OpPos).Line, name, "relop", len(alts), func(v int) string {
						old := bx.Op
						bx.Op = alts[v]
						return fmt.Sprintf("%s : %s -> %s", before, old, alts[v])
					}})
				}
				if x.Op == token.ADD || x.Op == token.SUB {
					if lit, ok := x.Y.(*ast.BasicLit); ok && lit.Kind == token.INT && len(lit.Value) == 1 {
						bl := lit
						before := expr(x)
						sites = append(sites, site{fset.Position(x.OpPos).Line, name, "const", 2, func(v int) string {
							old := bl.Value
							k := int(old[0] - '0')
							if v == 0 {
								k++
							} else {
								k--
							}
							if k < 0 {
								return ""
							}
							bl.Value = fmt.Sprint(k)
							return fmt.Sprintf("%s : literal %s -> %d", before, old, k)
						}})
					}
				}
			case *ast.BlockStmt:
				for i, st := range x.List {
					del := false
					switch s := st.(type) {
					case *ast.AssignStmt:
						if s.Tok != token.DEFINE {
							del = true
						}
					case *ast.IncDecStmt:
						del = true
					case *ast.ExprStmt:
						if _, isCall := s.X.(*ast.CallExpr); isCall {
							del = true
						}
					}
					if !del {
						continue
					}
					blk, idx := x, i
					var b bytes.Buffer
					printer.Fprint(&b, fset, st)
					before := strings.ReplaceAll(b.String(), "\n", " ")
					if len(before) > 80 {
						before = before[:80] + "…"
					}
					sites = append(sites, site{fset.Position(st.Pos()).Line, name, "delete", 1, func(v int) string {
						blk.List[idx] = &ast.EmptyStmt{Implicit: false, Semicolon: blk.List[idx].Pos()}
						return "delete statement: " + before
					}})
				}
			}
			return true
		})
	}
	return sites
}
