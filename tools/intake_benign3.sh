#!/bin/bash
# usage: intake_benign.sh <prop> — for each /tmp/wt/B<prop>-out/refactor<i>.diff: apply to the scratch worktree
# /tmp/wt/B<prop>, build, run the pinned baseline, run every property check on it (installed bin/lzcheck,
# no evidence written), store under /verif/benign/<prop>-b<i>/ with the alarms (if any), remove the worktree.
# A benign refactoring on which a check fires is triaged by hand: false alarm (fix the rule) or the
# refactoring is not behaviour-preserving after all (then it is dropped or moved to seeded/).
set -u
P=$1
OUT=/tmp/wt/B3$P-out; WT=/tmp/wt/B3$P
export GOFLAGS=-mod=mod GOPROXY=off GOSUMDB=off GOTOOLCHAIN=local
PROPS=$(python3 -c "import json; print(' '.join(c['property_id'] for c in json.load(open('/verif/MANIFEST.json'))['checks']))")
for i in 1 2 3; do
  F=$OUT/refactor$i.diff
  [ -s $F ] || { echo "$P b$i: no patch"; continue; }
  cd $WT && git checkout -q -- . && git clean -fdq
  git apply $F 2>/dev/null || { echo "$P b$i: PATCH FAILS"; continue; }
  go build ./... 2>/dev/null || { echo "$P b$i: BUILD FAILS"; git checkout -q -- .; continue; }
  if [ -f $OUT/equiv${i}_test.go ]; then
    D=.; grep -q '^package suffix' $OUT/equiv${i}_test.go && D=suffix
    cp $OUT/equiv${i}_test.go $D/zz_equiv_test.go
  fi
  /verif/tools/baseline.py $WT > /tmp/wt/B3$P-base$i.log 2>&1; BASE=$?
  EQ=na
  if [ -f $OUT/equiv${i}_test.go ]; then
    T=$(grep -o '^func Test[A-Za-z0-9_]*' $OUT/equiv${i}_test.go | sed 's/func //' | paste -sd'|')
    (cd $WT/$D && timeout 300 go test -vet=off -count=1 -run "^($T)\$" . >/tmp/wt/B3$P-eq$i.log 2>&1) && EQ=pass || EQ=fail
    rm -f $WT/$D/zz_equiv_test.go
  fi
  fired=""
  for p in $PROPS; do
    out=$(timeout 600 /verif/bin/lzcheck -verif /verif -repo $WT -property $p -no-evidence 2>&1)
    if echo "$out" | grep -q '^VIOLATION'; then
      fired="$fired $p"
      echo "$out" | grep -v '^VIOLATION' | grep -v '^lzcheck\|KNOWN-FINDING' | cut -c1-300 | sed "s/^/  [$p] /" | head -6
    elif ! echo "$out" | grep -q '^lzcheck .* 0 failed'; then
      fired="$fired $p(BROKEN)"
    fi
  done
  echo "$P b$((i+6)): baseline-exit=$BASE equiv=$EQ ALARMS:$fired"
  DST=/verif/benign/$P-b$((i+6))
  mkdir -p $DST
  cp $F $DST/patch.diff
  [ -f $OUT/notes$i.md ] && cp $OUT/notes$i.md $DST/notes.md
  [ -f $OUT/equiv${i}_test.go ] && cp $OUT/equiv${i}_test.go $DST/equiv_test.go
  python3 - "$P" "$i" "$BASE" "$EQ" "$fired" <<'PY'
import json,sys,subprocess
p,i,base,eq,fired=sys.argv[1:6]
head=subprocess.run(['git','-C','/repo','rev-parse','--short','HEAD'],capture_output=True,text=True).stdout.strip()
m={'property':p,'kind':'behaviour-preserving refactoring, third batch (sub-agent, property text and a list of recently repaired functions to refactor)','base_commit':head,
   'baseline_passes':base=='0','equiv_test':eq,'alarms':fired.split(),
   'what_was_run':'tools/intake_benign.sh: patch applied to scratch worktree, go build, pinned baseline, quick check of every claimed property with -no-evidence'}
json.dump(m,open('/verif/benign/%s-b%s/meta.json'%(p,int(i)+6),'w'),indent=1)
PY
  cd $WT && git checkout -q -- . && git clean -fdq
done
cd /verif
rm -rf $WT

