#!/bin/bash
# usage: mk_refresh.sh seeded/<id> | benign/<id> — private repository /tmp/wt/R<id> at /repo HEAD + /tmp/wt/R<id>-out with the
# recorded change, for a sub-agent that adjusts a stale demonstration / equivalence test after /repo was repaired.
D=$1; ID=$(basename $D)
W=/tmp/wt/R$ID
rm -rf $W $W-out; mkdir -p $W $W-out
(cd /repo && git archive HEAD | tar -x -C $W) && (cd $W && git init -q && git add -A && git -c user.email=a@b -c user.name=a commit -qm base) || exit 2
cp /verif/$D/patch.diff $W-out/patch.diff; cp /verif/$D/notes.md $W-out/notes.md 2>/dev/null
if [ -f /verif/$D/demo_test.go ]; then
  cp /verif/$D/demo_test.go $W-out/demo_test.go
  TF=demo_test.go; TR="a demonstration test: it is meant to PASS on the unchanged library and FAIL when the change is applied (the change is a deliberately seeded defect)."
  EX="passes on the clean new tree and fails with patch.diff applied, for the reason notes.md describes"
  VF="Verify both: copy the adjusted test into the package directory named by its package clause, run it on the clean tree (must pass), apply patch.diff with git apply, run it again (must fail), restore with git checkout -- ."
else
  cp /verif/$D/equiv_test.go $W-out/equiv_test.go
  TF=equiv_test.go; TR="an equivalence test: the change is a behaviour-preserving refactoring and the test is meant to pass both without and with it."
  EX="passes on the clean new tree and also with patch.diff applied"
  VF="Verify both: copy the adjusted test into the package directory named by its package clause, run it on the clean tree (must pass), apply patch.diff with git apply, run it again (must pass), restore with git checkout -- ."
fi
python3 - "$ID" "$TF" "$TR" "$EX" "$VF" <<'PY'
import sys
id,tf,tr,ex,vf=sys.argv[1:6]
t=open('/verif/tools/refresh_prompt.tmpl').read().replace('@ID@',id).replace('@TESTFILE@',tf).replace('@TESTROLE@',tr).replace('@EXPECT@',ex).replace('@VERIFY@',vf)
open('/tmp/wt/R%s-out/prompt.txt'%id,'w').write(t)
PY
