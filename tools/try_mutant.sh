#!/bin/bash
# usage: try_mutant.sh <patch.diff> [prop ...]
# Applies the patch to a scratch worktree of /repo's HEAD, runs the quick checks (all claimed properties by
# default) without touching the evidence files, reports which fire, and always
# restores /repo afterwards.
set -u
PATCH="$(realpath "$1")"; shift
cd /verif
PROPS="$*"
if [ -z "$PROPS" ]; then PROPS=$(python3 -c "import json; print(' '.join(c['property_id'] for c in json.load(open('/verif/MANIFEST.json'))['checks']))"); fi
# a private scratch worktree of /repo's HEAD (outside /repo and /verif), removed afterwards
T=${TRIAL_DIR:-/tmp/wt/trial-$$}
git -C /repo worktree add -q --detach "$T" HEAD || exit 2
trap 'git -C /repo worktree remove --force "$T" >/dev/null 2>&1' EXIT
if ! git -C "$T" apply "$PATCH" 2>/dev/null; then
  if ! (cd "$T" && patch -p1 --fuzz=3 -s < "$PATCH"); then echo "PATCH DOES NOT APPLY"; exit 3; fi
fi
export GOFLAGS=-mod=mod GOPROXY=off GOSUMDB=off GOTOOLCHAIN=local
(cd "$T" && go build ./... ) || { echo "DOES NOT BUILD"; exit 4; }
fired=""
for p in $PROPS; do
  out=$(timeout 600 /verif/bin/lzcheck -verif /verif -repo "$T" -property $p -no-evidence 2>&1)
  if echo "$out" | grep -q '^VIOLATION'; then
    fired="$fired $p"
    echo "$out" | grep -v '^VIOLATION' | grep -v '^lzcheck\|KNOWN-FINDING' | cut -c1-260 | sed "s/^/  [$p] /" | head -4
  elif ! echo "$out" | grep -q '^lzcheck .* 0 failed'; then
    echo "  [$p] BROKEN: $(echo "$out" | tail -2 | cut -c1-200)"
  fi
done
echo "FIRED:$fired"
