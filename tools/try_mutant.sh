#!/bin/bash
# usage: try_mutant.sh <patch.diff> [prop ...]
# Applies the patch to /repo, runs the quick checks (all claimed properties by
# default) without touching the evidence files, reports which fire, and always
# restores /repo afterwards.
set -u
PATCH="$1"; shift
cd /verif
PROPS="$*"
if [ -z "$PROPS" ]; then PROPS=$(python3 -c "import json; print(' '.join(c['property_id'] for c in json.load(open('/verif/MANIFEST.json'))['checks']))"); fi
if [ -n "$(git -C /repo status --porcelain)" ]; then echo "repo not clean"; exit 2; fi
trap 'git -C /repo checkout -- . >/dev/null 2>&1' EXIT
if ! git -C /repo apply "$PATCH" 2>/dev/null; then
  if ! git -C /repo apply --3way "$PATCH" 2>/dev/null; then
    if ! (cd /repo && patch -p1 --fuzz=3 -s < "$PATCH"); then echo "PATCH DOES NOT APPLY"; exit 3; fi
  fi
fi
export GOFLAGS=-mod=mod GOPROXY=off GOSUMDB=off GOTOOLCHAIN=local
(cd /repo && go build ./... ) || { echo "DOES NOT BUILD"; exit 4; }
fired=""
for p in $PROPS; do
  out=$(/verif/bin/lzcheck -verif /verif -repo /repo -property $p -no-evidence 2>&1)
  if echo "$out" | grep -q '^VIOLATION'; then
    fired="$fired $p"
    echo "$out" | grep -v '^VIOLATION' | grep -v '^lzcheck\|KNOWN-FINDING' | cut -c1-260 | sed "s/^/  [$p] /" | head -4
  elif ! echo "$out" | grep -q '^lzcheck .* 0 failed'; then
    echo "  [$p] BROKEN: $(echo "$out" | tail -2 | cut -c1-200)"
  fi
done
echo "FIRED:$fired"
