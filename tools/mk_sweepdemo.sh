#!/bin/bash
# usage: mk_sweepdemo.sh <prop> <sweep-dir> <mutant-id>...  — scratch repository /tmp/wt/<prop> + /tmp/wt/<prop>-out with the
# sweep survivors as patch1.diff… and a prompt for a sub-agent that writes the demonstrations (DESIGN 7.10).
P=$1; SW=$2; shift 2
D=/tmp/wt/$P
rm -rf $D $D-out; mkdir -p $D $D-out
(cd /repo && git archive HEAD | tar -x -C $D) && (cd $D && git init -q && git add -A && git -c user.email=a@b -c user.name=a commit -qm base) || exit 2
i=0
for m in "$@"; do
  i=$((i+1))
  (cd $SW/$m && find . -name '*.go' | while read f; do cp $f $D/$f; done)
  (cd $D && git diff > $D-out/patch$i.diff && git checkout -q -- .)
  cp $SW/$m/meta.json $D-out/sweep$i.json
done
python3 - "$P" <<'PY'
import json,sys
p=sys.argv[1]
for l in open('/verif/properties.jsonl'):
    d=json.loads(l)
    if d['id']==p:
        json.dump(d,open('/tmp/wt/%s-out/property.json'%p,'w'),indent=1)
        text='%s — %s\n\n%s'%(d['id'],d['title'],d['statement'])
        t=open('/verif/tools/sweep_prompt.tmpl').read().replace('@P@',p).replace('@TEXT@',text)
        open('/tmp/wt/%s-out/prompt.txt'%p,'w').write(t)
PY
