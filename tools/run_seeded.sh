#!/bin/bash
# Applies every seeded mutant to /repo in turn, runs all claimed quick checks
# (no evidence written), restores /repo, and records which checks fire in
# seeded/<id>/meta.json (detected_by) and seeded/RESULTS.md.
cd /verif
: > seeded/RESULTS.md.tmp
run_one() {
  d=$1
  id=$(basename $d)
  out=$(./tools/try_mutant.sh $d/patch.diff 2>&1)
  fired=$(echo "$out" | grep '^FIRED:' | sed 's/FIRED://')
  rules=$(echo "$out" | grep -o 'R-[A-Z0-9-]*' | sort -u | paste -sd' ')
  python3 - "$d" "$fired" "$rules" <<'PY'
import json,sys
d,fired,rules=sys.argv[1],sys.argv[2].split(),sys.argv[3].split()
m=json.load(open(d+"/meta.json")); m["detected_by_checks"]=fired; m["detected_by_rules"]=rules
m["what_was_run"]="tools/try_mutant.sh %spatch.diff (git -C /repo apply; quick check of every claimed property; git -C /repo checkout -- .)"%d
json.dump(m,open(d+"/meta.json","w"),indent=1)
PY
  echo "| $id | ${fired:-MISSED} | $rules |" >> seeded/RESULTS.md.tmp
  echo "$id: ${fired:-MISSED}"
}
N=0
for d in seeded/C*/; do
  run_one $d &
  N=$((N+1))
  if [ $((N % 6)) -eq 0 ]; then wait; fi
done
wait
sort -o seeded/RESULTS.md.tmp seeded/RESULTS.md.tmp
{ echo "| mutant | checks that fire | rules |"; echo "|---|---|---|"; cat seeded/RESULTS.md.tmp; } > seeded/RESULTS.md; rm seeded/RESULTS.md.tmp
