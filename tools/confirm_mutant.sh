#!/bin/bash
# usage: confirm_mutant.sh <prop> <i>   (inputs in /tmp/wt/<prop>-out, scratch worktree /tmp/wt/<prop>)
# Confirms: patch applies and builds; pinned baseline still passes with the patch;
# demo fails with the patch and passes without it.
set -u
P=$1; I=$2
OUT=/tmp/wt/$P-out; WT=/tmp/wt/$P
export GOFLAGS=-mod=mod GOPROXY=off GOSUMDB=off GOTOOLCHAIN=local
cd $WT || exit 2
git checkout -q -- . ; git clean -fdq
DEMO=$OUT/demo${I}_test.go
DIR=.
if grep -q '^package suffix' $DEMO; then DIR=suffix; fi
cp $DEMO $DIR/zz_demo${I}_test.go
TESTS=$(grep -o '^func Test[A-Za-z0-9_]*' $DEMO | sed 's/func //' | paste -sd'|')
RACE=""
if grep -qi 'race' $OUT/notes$I.md && grep -q 'sync\|go func' $DEMO; then RACE="-race"; fi
echo "tests: $TESTS dir=$DIR race=$RACE"
timeout 300 go test -vet=off -count=1 $RACE -timeout 120s -run "^($TESTS)\$" ./$DIR > /tmp/wt/$P-clean.log 2>&1; CLEAN=$?
git apply $OUT/patch$I.diff || { echo "PATCH FAILS"; exit 3; }
go build ./... || { echo "BUILD FAILS"; exit 4; }
timeout 300 go test -vet=off -count=1 $RACE -timeout 120s -run "^($TESTS)\$" ./$DIR > /tmp/wt/$P-patched.log 2>&1; PATCHED=$?
rm -f $DIR/zz_demo${I}_test.go
/verif/tools/baseline.py $WT > /tmp/wt/$P-base.log 2>&1; BASE=$?
git checkout -q -- . ; git clean -fdq
echo "clean-demo-exit=$CLEAN patched-demo-exit=$PATCHED baseline-exit=$BASE"
if [ $CLEAN -eq 0 ] && [ $PATCHED -ne 0 ] && [ $BASE -eq 0 ]; then echo CONFIRMED; exit 0; else echo NOT-CONFIRMED; tail -5 /tmp/wt/$P-clean.log /tmp/wt/$P-base.log; exit 1; fi
