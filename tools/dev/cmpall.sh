#!/bin/bash
# usage: cmpall.sh <repo> <tag> [props...] : run dev binary with -v, save obligations per prop
R=$1; TAG=$2; shift 2
PROPS=${*:-C01 C02 C03 C04 C05 C06 C07 C08 C09 C10 C11 C12 C13 C14 C15 C16 C17 C18 C19 C20}
mkdir -p /tmp/wt/cmp/$TAG
for p in $PROPS; do
  ( ${BIN:-/tmp/wt/lzcheck-dev} -verif ${VERIF:-/verif} -repo $R -property $p -no-evidence -v > /tmp/wt/cmp/$TAG/$p.txt 2>&1; tail -1 /tmp/wt/cmp/$TAG/$p.txt ) &
done
wait
