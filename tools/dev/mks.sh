#!/bin/bash
# mks.sh <seeded-id>: scratch tree /tmp/wt/st-<id> with the seeded patch (kept)
ID=$1; D=/tmp/wt/st-$ID
rm -rf $D; mkdir -p $D && (cd /repo && git archive HEAD | tar -x -C $D) && (cd $D && patch -p1 -s < /verif/seeded/$ID/patch.diff) && echo $D
