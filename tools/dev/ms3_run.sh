#!/bin/bash
while [ ! -f /tmp/wt/ms2.done ]; do sleep 30; done
cd /verif
ls -d /tmp/wt/ms3/m* | while read d; do f=$(python3 -c "import json;print(json.load(open('$d/meta.json'))['file'])"); case $f in hp.go|gsap.go|bup.go) echo $d;; esac; done > /tmp/wt/ms3_list.txt
cat /tmp/wt/ms3_list.txt | BIN=/tmp/wt/lzcheck-ms VERIF=/tmp/wt/vdev xargs -P 5 -I{} ./tools/mutsweep.sh {} /tmp/wt/ms3_results.tsv
touch /tmp/wt/ms3.done
