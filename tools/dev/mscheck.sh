#!/bin/bash
# mscheck.sh <mutant-id> props... : dev checker on sweep mutant
id=$1; shift
T=/tmp/wt/msc-$id; rm -rf $T; mkdir -p $T; (cd /repo && git archive HEAD | tar -x -C $T)
(cd /tmp/wt/ms/$id && find . -name '*.go' | while read f; do cp $f $T/$f; done)
for p in "$@"; do
  out=$(${BIN:-/tmp/wt/lzcheck-dev} -verif /tmp/wt/vdev -repo $T -property $p -no-evidence 2>&1)
  if echo "$out" | grep -q '^VIOLATION'; then echo "$id $p DETECTED: $(echo "$out" | grep -v '^VIOL\|^KNOWN\|^lzcheck' | head -1 | cut -c1-160)"; else echo "$id $p silent"; fi
done
rm -rf $T
