#!/bin/bash
# bcheck.sh <benign-id> [props...] : run dev checker on the benign tree; print alarms
ID=$1; shift
[ -d /tmp/wt/bt-$ID ] || /tmp/wt/mkb.sh $ID >/dev/null
PROPS=${*:-$(python3 -c "import json;print(' '.join(json.load(open('/verif/benign/$ID/meta.json'))['alarms']))")}
for p in $PROPS; do
  out=$(${BIN:-/tmp/wt/lzcheck-dev} -verif ${VERIF:-/verif} -repo /tmp/wt/bt-$ID -property $p -no-evidence 2>&1)
  echo "$out" | grep -v "^VIOLATION\|^KNOWN" | grep -v "^lzcheck.* 0 failed" | cut -c1-${W:-330} | sed "s/^/[$ID $p] /"
done
