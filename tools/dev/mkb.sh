#!/bin/bash
# mkb.sh <benign-id> : scratch copy of /repo HEAD with the benign patch applied at /tmp/wt/bt-<id>
ID=$1; D=/tmp/wt/bt-$ID
rm -rf $D; mkdir -p $D && (cd /repo && git archive HEAD | tar -x -C $D) && (cd $D && patch -p1 -s < /verif/benign/$ID/patch.diff) && echo $D
