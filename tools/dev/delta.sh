#!/bin/bash
# delta.sh <kind:seeded|benign> <id> : run dev binary on entry for the delta props; print "id: fired props"
K=$1; ID=$2; PROPS="C01 C02 C07 C11"
T=/tmp/wt/dl-$K-$ID; rm -rf $T; mkdir -p $T
(cd /repo && git archive HEAD | tar -x -C $T) || exit 2
(cd $T && patch -p1 -s < /verif/$K/$ID/patch.diff) || { echo "$ID: PATCH FAILS"; rm -rf $T; exit 0; }
fired=""
for p in $PROPS; do
  out=$(/tmp/wt/lzcheck-dev -verif /tmp/wt/vdev -repo $T -property $p -no-evidence 2>&1)
  if echo "$out" | grep -q '^VIOLATION'; then fired="$fired $p"; elif ! echo "$out" | grep -q '^lzcheck .* 0 failed'; then fired="$fired $p(BROKEN)"; fi
done
rm -rf $T
echo "$ID:$fired"
