#!/bin/bash
# scheck.sh <seeded-id> [props] : dev checker on scratch tree with seeded patch; prints DETECTED/MISSED
ID=$1; shift
D=/tmp/wt/st-$ID
rm -rf $D; mkdir -p $D && (cd /repo && git archive HEAD | tar -x -C $D) && (cd $D && patch -p1 -s < /verif/seeded/$ID/patch.diff) || { echo "$ID patch failed"; exit 2; }
P=${*:-${ID%%-*}}
for p in $P; do
  out=$(${BIN:-/tmp/wt/lzcheck-dev} -verif ${VERIF:-/verif} -repo $D -property $p -no-evidence 2>&1)
  if echo "$out" | grep -q "^VIOLATION"; then echo "$ID $p DETECTED"; else echo "$ID $p MISSED"; fi
done
rm -rf $D
