#!/bin/bash
# usage: run_seeded_one.sh seeded/<id>   — one entry of tools/run_seeded.sh (used for parallel runs)
cd /verif
run_one() {
  d=${1%/}
  id=$(basename $d)
  out=$(TRIAL_DIR=/tmp/wt/trial-$id ./tools/try_mutant.sh $d/patch.diff 2>&1)
  fired=$(echo "$out" | grep '^FIRED:' | sed 's/FIRED://')
  rules=$(echo "$out" | grep -o 'R-[A-Z0-9-]*[A-Z0-9]' | sort -u | paste -sd' ')
  python3 - "$d" "$fired" "$rules" <<'PY'
import json,sys
d,fired,rules=sys.argv[1],sys.argv[2].split(),sys.argv[3].split()
m=json.load(open(d+"/meta.json")); m["detected_by_checks"]=fired; m["detected_by_rules"]=rules
m["what_was_run"]="tools/try_mutant.sh %s/patch.diff: patch applied to a scratch worktree of /repo HEAD (outside /repo and /verif), go build, quick check of every claimed property with -no-evidence, worktree removed"%d
json.dump(m,open(d+"/meta.json","w"),indent=1)
PY
  echo "$id: ${fired:-MISSED}"
}
run_one "$1"
