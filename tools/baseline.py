#!/usr/bin/env python3
"""Runs the repository's pinned test suite (guard off; there are no hooks) and
compares the passing tests with /root/.vp/BASELINE.json stable_pass."""
import json, os, subprocess, sys
repo = sys.argv[1] if len(sys.argv) > 1 else "/repo"
env = dict(os.environ, GOFLAGS="-mod=mod", GOPROXY="off", GOSUMDB="off", GOTOOLCHAIN="local")
env.pop("GOWORK", None)
p = subprocess.run(["go", "test", "-json", "-vet=off", "-count=1", "-timeout", "25m", "./..."],
                   cwd=repo, env=env, capture_output=True, text=True)
passed = set()
for line in p.stdout.splitlines():
    try:
        ev = json.loads(line)
    except Exception:
        continue
    if ev.get("Action") == "pass" and ev.get("Test"):
        passed.add(ev["Package"] + "::" + ev["Test"])
want = set(json.load(open("/root/.vp/BASELINE.json"))["stable_pass"])
missing = sorted(want - passed)
print("baseline: %d/%d stable tests pass" % (len(want & passed), len(want)))
for m in missing:
    print("  MISSING", m)
sys.exit(1 if missing else 0)
