#!/bin/bash
# usage: mk_mutant6.sh <prop> — private scratch repository /tmp/wt/<prop> (copy of /repo HEAD with its own .git) +
# /tmp/wt/<prop>-out/{property.json,prompt.txt} for a sub-agent asked for property-breaking changes (round 6: unstated contracts between cooperating functions).
P=$1
D=/tmp/wt/$P
rm -rf $D $D-out; mkdir -p $D $D-out
(cd /repo && git archive HEAD | tar -x -C $D) && (cd $D && git init -q && git add -A && git -c user.email=a@b -c user.name=a commit -qm base) || exit 2
python3 - "$P" <<'PY'
import json,sys
p=sys.argv[1]
for l in open('/verif/properties.jsonl'):
    d=json.loads(l)
    if d['id']==p:
        json.dump(d,open('/tmp/wt/%s-out/property.json'%p,'w'),indent=1)
        text='%s — %s\n\n%s'%(d['id'],d['title'],d['statement'])
        t=open('/verif/tools/mutant_prompt6.tmpl').read().replace('@P@',p).replace('@TEXT@',text)
        open('/tmp/wt/%s-out/prompt.txt'%p,'w').write(t)
PY
