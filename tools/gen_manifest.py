#!/usr/bin/env python3
"""Generates /verif/MANIFEST.json from the rule registry of lzcheck (-list)
and the claim table below. Re-run after adding rules."""
import json, subprocess, os, re, sys
V = "/verif"
out = subprocess.run([V + "/bin/lzcheck", "-list"], capture_output=True, text=True).stdout
props = {}
cur = None
for line in out.splitlines():
    m = re.match(r"^(C\d\d)\s+(.*)$", line)
    if m:
        cur = m.group(1); props[cur] = {"title": m.group(2), "rules": []}
    elif line.strip() and cur:
        props[cur]["rules"].append(line.split()[0])

# per-property claim text; a property missing here or without rules goes to not_applicable
NOT_IMPL = "no structural rule implemented yet for this property in the static-analysis family (see DESIGN.md §4)"
NA_REASON = {}
TECH = {}
claims = json.load(open(V + "/tools/claims.json"))
checks, na = [], []
allp = ["C%02d" % i for i in range(1, 21)]
for p in allp:
    if p in props and props[p]["rules"] and p in claims and not claims[p].get("not_applicable"):
        c = claims[p]
        checks.append({
            "property_id": p,
            "quick_cmd": "./check.sh %s quick" % p,
            "thorough_cmd": "./check.sh %s thorough" % p,
            "evidence_file": "/verif/evidence/%s.json" % p,
            "replay_cmd_template": "./bin/lzcheck -replay {path}",
            "engine": "lzcheck",
            "level_claimed": {"category": "other", "text": c["text"], "design_ref": "DESIGN.md §4 " + p},
            "level_note": c["note"],
            "technique": c.get("technique", "static analysis: dominating-guard / dataflow rules over go/ssa"),
        })
    else:
        reason = claims.get(p, {}).get("not_applicable") or NOT_IMPL
        na.append({"property_id": p, "reason": reason})
man = {
    "version": 1,
    "setup_cmd": "./setup.sh",
    "hooks": {
        "guard": "verif",
        "enable": "none needed: static analysis reads the sources; no hook or instrumentation exists in /repo",
        "baseline_off_cmd": "./tools/baseline.py /repo",
        "source_commits": [],
        "add_only": True,
    },
    "engines": [{
        "name": "lzcheck",
        "path": "/verif/checker",
        "serves_properties": [c["property_id"] for c in checks],
        "kind_free_text": "repository-specific static analyser (go/packages + go/types + go/ssa, x/tools v0.29.0): dominating-condition facts, linear normal forms, clamp/phi case split, access-path effect summaries, must-write dataflow, call-graph reachability; decides named structural rules per property and reports file:line constructs",
    }],
    "checks": checks,
    "not_applicable": na,
    "notes": "Every claim is level 'other': each check decides structural necessary conditions of its property (named rules, DESIGN.md §4/§5) on the current /repo tree and states in its evidence what part of the property is NOT decided. Genuine defects found by the rules were repaired in /repo by 'fix:' commits and are listed in known_findings.txt.",
}
json.dump(man, open(V + "/MANIFEST.json", "w"), indent=1)
print("claimed:", [c["property_id"] for c in checks])
print("not applicable:", [n["property_id"] for n in na])
