#!/bin/bash
# usage: intake.sh <prop>   — confirm the three mutants in /tmp/wt/<prop>-out, store the confirmed ones under the next
# free ids in /verif/seeded, remove the scratch worktree.
P=$1
cd /verif
next=1
while [ -d seeded/$P-$next ] || [ -d seeded/retired/$P-$next ]; do next=$((next+1)); done
for i in 1 2 3; do
  [ -f /tmp/wt/$P-out/patch$i.diff ] || { echo "$P r-$i: no patch"; continue; }
  res=$(./tools/confirm_mutant.sh $P $i 2>&1 | tail -1)
  echo "$P #$i -> $res"
  if [ "$res" = CONFIRMED ]; then
    ./tools/seed_store.py $P $i $next >/dev/null
    python3 - $P $next <<'PY'
import json,sys
f='/verif/seeded/%s-%s/meta.json'%(sys.argv[1],sys.argv[2])
m=json.load(open(f)); m["round"]=7; json.dump(m,open(f,'w'),indent=1)
PY
    echo "  stored as $P-$next"
    next=$((next+1))
    while [ -d seeded/$P-$next ] || [ -d seeded/retired/$P-$next ]; do next=$((next+1)); done
  fi
done
rm -rf /tmp/wt/$P
