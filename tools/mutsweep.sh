#!/bin/bash
# usage: mutsweep.sh <mutant-dir> <result-file>      (one mutant produced by tools/mutsweep; see DESIGN 7.10)
# Scratch copy of /repo HEAD outside /repo and /verif with the mutated file, go build, every property's quick check
# (binary $BIN, default bin/lzcheck; no evidence written); only when NO check fires, the pinned baseline is run to
# see whether the existing tests kill the mutant. One result line: id<TAB>status<TAB>props<TAB>file:line func kind desc.
# status: nobuild | detected | killed-by-tests | SURVIVOR (compiles, passes the pinned tests, no check fires).
M=$1; OUT=$2
id=$(basename $M)
export GOFLAGS=-mod=mod GOPROXY=off GOSUMDB=off GOTOOLCHAIN=local
BIN=${BIN:-/verif/bin/lzcheck}
T=/tmp/wt/msw-$id
rm -rf $T; mkdir -p $T
(cd /repo && git archive HEAD | tar -x -C $T) || exit 2
(cd $M && find . -name '*.go' | while read f; do cp $f $T/$f; done)
info=$(python3 -c "import json;m=json.load(open('$M/meta.json'));print('%s:%d %s %s %s'%(m['file'],m['line'],m['func'],m['kind'],m['desc']))")
if ! (cd $T && go build ./... >/dev/null 2>&1); then printf "%s\tnobuild\t-\t%s\n" $id "$info" >> $OUT; rm -rf $T; exit 0; fi
fired=""
for p in $(seq -w 1 20); do
  out=$(timeout 600 $BIN -verif ${VERIF:-/verif} -repo $T -property C$p -no-evidence 2>&1)
  if echo "$out" | grep -q '^VIOLATION'; then fired="$fired C$p"; elif ! echo "$out" | grep -q '^lzcheck .* 0 failed'; then fired="$fired C$p(BROKEN)"; fi
done
if [ -n "$fired" ]; then printf "%s\tdetected\t%s\t%s\n" $id "$fired" "$info" >> $OUT; rm -rf $T; exit 0; fi
if /verif/tools/baseline.py $T > /dev/null 2>&1; then st=SURVIVOR; else st=killed-by-tests; fi
printf "%s\t%s\t-\t%s\n" $id $st "$info" >> $OUT
rm -rf $T
