#!/bin/bash
# usage: intake_port.sh seeded/<id> | benign/<id> — confirm /tmp/wt/P<id>-out/ported.diff (made by a porting sub-agent after
# /repo received a repair near the lines of the recorded change) and store it as the entry's patch.diff.
# seeded: demo passes on the clean tree and fails with the patch, pinned baseline passes with the patch.
# benign: equivalence test passes on the clean tree and with the patch, pinned baseline passes with the patch.
set -u
D=$1; ID=$(basename $D); KIND=$(dirname $D)
W=/tmp/wt/P$ID; OUT=$W-out
export GOFLAGS=-mod=mod GOPROXY=off GOSUMDB=off GOTOOLCHAIN=local
[ -s $OUT/ported.diff ] || { echo "$D: no ported.diff"; exit 1; }
cd $W || exit 2
git checkout -q -- . ; git clean -fdq
T=$OUT/demo_test.go; [ $KIND = benign ] && T=$OUT/equiv_test.go
[ -f $OUT/ported_test.go ] && T=$OUT/ported_test.go
DIR=.; grep -q '^package suffix' $T && DIR=suffix
cp $T $DIR/zz_port_test.go
TESTS=$(grep -o '^func Test[A-Za-z0-9_]*' $T | sed 's/func //' | paste -sd'|')
timeout 600 go test -vet=off -count=1 -timeout 300s -run "^($TESTS)\$" ./$DIR > /tmp/wt/P$ID-clean.log 2>&1; CLEAN=$?
git apply $OUT/ported.diff || { echo "$D: PORTED PATCH FAILS"; exit 3; }
go build ./... || { echo "$D: BUILD FAILS"; exit 4; }
timeout 600 go test -vet=off -count=1 -timeout 300s -run "^($TESTS)\$" ./$DIR > /tmp/wt/P$ID-patched.log 2>&1; PATCHED=$?
rm -f $DIR/zz_port_test.go
/verif/tools/baseline.py $W > /tmp/wt/P$ID-base.log 2>&1; BASE=$?
git checkout -q -- . ; git clean -fdq
OK=no
if [ $KIND = seeded ] && [ $CLEAN -eq 0 ] && [ $PATCHED -ne 0 ] && [ $BASE -eq 0 ]; then OK=yes; fi
if [ $KIND = benign ] && [ $CLEAN -eq 0 ] && [ $PATCHED -eq 0 ] && [ $BASE -eq 0 ]; then OK=yes; fi
echo "$D: clean=$CLEAN patched=$PATCHED baseline=$BASE -> $OK"
if [ $OK = yes ]; then
  cp $OUT/ported.diff /verif/$D/patch.diff
  if [ -f $OUT/ported_test.go ]; then
    if [ $KIND = seeded ]; then cp $OUT/ported_test.go /verif/$D/demo_test.go; else cp $OUT/ported_test.go /verif/$D/equiv_test.go; fi
  fi
  python3 - /verif/$D/meta.json "$(git -C /repo log --format=%h -1)" <<'PY'
import json,sys
f,h=sys.argv[1],sys.argv[2]
m=json.load(open(f)); m['base_commit']=h; m['ported']='re-created on %s by a porting sub-agent after /repo received repairs near the same lines; re-confirmed by tools/intake_port.sh'%h
json.dump(m,open(f,'w'),indent=1)
PY
  rm -rf $W $OUT
fi
