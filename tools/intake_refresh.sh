#!/bin/bash
# usage: intake_refresh.sh seeded/<id> | benign/<id> — confirm /tmp/wt/R<id>-out/refreshed_test.go (a demonstration or
# equivalence test adjusted by a sub-agent after /repo was repaired) against the stored patch and store it.
set -u
D=$1; ID=$(basename $D); KIND=$(dirname $D)
W=/tmp/wt/R$ID; OUT=$W-out
export GOFLAGS=-mod=mod GOPROXY=off GOSUMDB=off GOTOOLCHAIN=local
T=$OUT/refreshed_test.go
[ -s $T ] || { echo "$D: no refreshed_test.go"; exit 1; }
cd $W || exit 2
git checkout -q -- . ; git clean -fdq
DIR=.; grep -q '^package suffix' $T && DIR=suffix
cp $T $DIR/zz_ref_test.go
TESTS=$(grep -o '^func Test[A-Za-z0-9_]*' $T | sed 's/func //' | paste -sd'|')
timeout 600 go test -vet=off -count=1 -timeout 300s -run "^($TESTS)\$" ./$DIR > /tmp/wt/R$ID-clean.log 2>&1; CLEAN=$?
git apply /verif/$D/patch.diff 2>/dev/null || patch -p1 --fuzz=3 -s < /verif/$D/patch.diff || { echo "$D: PATCH FAILS"; exit 3; }
go build ./... || { echo "$D: BUILD FAILS"; exit 4; }
timeout 600 go test -vet=off -count=1 -timeout 300s -run "^($TESTS)\$" ./$DIR > /tmp/wt/R$ID-patched.log 2>&1; PATCHED=$?
rm -f $DIR/zz_ref_test.go
git checkout -q -- . ; git clean -fdq
OK=no
if [ $KIND = seeded ] && [ $CLEAN -eq 0 ] && [ $PATCHED -ne 0 ]; then OK=yes; fi
if [ $KIND = benign ] && [ $CLEAN -eq 0 ] && [ $PATCHED -eq 0 ]; then OK=yes; fi
echo "$D: clean=$CLEAN patched=$PATCHED -> $OK"
if [ $OK = yes ]; then
  if [ $KIND = seeded ]; then cp $T /verif/$D/demo_test.go; else cp $T /verif/$D/equiv_test.go; fi
  python3 - /verif/$D/meta.json "$(git -C /repo log --format=%h -1)" <<'PY'
import json,sys
f,h=sys.argv[1],sys.argv[2]
m=json.load(open(f)); m['base_commit']=h; m['test_refreshed']='test adjusted to the repaired library at %s by a sub-agent (golden values re-recorded / reference model updated); re-confirmed by tools/intake_refresh.sh'%h
json.dump(m,open(f,'w'),indent=1)
PY
  rm -rf $W $OUT
fi
