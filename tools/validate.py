#!/opt/veriftools/pyvenv/bin/python
import json, jsonschema, glob, sys
m=json.load(open('/verif/MANIFEST.json')); jsonschema.validate(m, json.load(open('/root/.vp/MANIFEST.schema.json')))
n=0
for f in sorted(glob.glob('/verif/evidence/*.json')):
    jsonschema.validate(json.load(open(f)), json.load(open('/root/.vp/EVIDENCE.schema.json'))); n+=1
print("schemas ok: manifest +", n, "evidence files")
