#!/bin/bash
# usage: mk_hunt2.sh <n> — private scratch repository /tmp/wt/G<n> (copy of /repo HEAD) + /tmp/wt/G<n>-out/prompt.txt for a
# sibling-comparison audit sub-agent (theme n of tools/hunt2_themes.json).
N=$1; D=/tmp/wt/G$N
rm -rf $D $D-out; mkdir -p $D $D-out
(cd /repo && git archive HEAD | tar -x -C $D) && (cd $D && git init -q && git add -A && git -c user.email=a@b -c user.name=a commit -qm base) || exit 2
python3 - "$N" <<'PY'
import json,sys
n=sys.argv[1]
th=json.load(open('/verif/tools/hunt2_themes.json'))[n]
t=open('/verif/tools/hunt2_prompt.tmpl').read().replace('@N@',n).replace('@THEME@',th)
open('/tmp/wt/G%s-out/prompt.txt'%n,'w').write(t)
PY
