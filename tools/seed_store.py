#!/usr/bin/env python3
"""seed_store.py <prop> <i> [<dst index>]: store a confirmed mutant from /tmp/wt/<prop>-out into /verif/seeded/<prop>-<i>/"""
import sys, os, shutil, json, subprocess, re
prop, i = sys.argv[1], sys.argv[2]
dsti = sys.argv[3] if len(sys.argv) > 3 else i
src = f"/tmp/wt/{prop}-out"
dst = f"/verif/seeded/{prop}-{dsti}"
os.makedirs(dst, exist_ok=True)
shutil.copy(f"{src}/patch{i}.diff", f"{dst}/patch.diff")
shutil.copy(f"{src}/demo{i}_test.go", f"{dst}/demo_test.go")
notes = open(f"{src}/notes{i}.md").read()
open(f"{dst}/notes.md", "w").write(notes)
demo = open(f"{dst}/demo_test.go").read()
pkgdir = "suffix" if re.search(r"^package suffix", demo, re.M) else "."
files = sorted(set(re.findall(r"^\+\+\+ b/(\S+)", open(f"{dst}/patch.diff").read(), re.M)))
meta = {
    "property": prop,
    "files_changed": files,
    "demo_package_dir": pkgdir,
    "needs_to_manifest": " ".join(notes.split("\n\n")[1:3])[:900] if "\n\n" in notes else notes[:900],
    "confirmed_by": "tools/confirm_mutant.sh %s %s in scratch worktree /tmp/wt/%s: patch applies, go build ./... ok, pinned baseline 31/31 with patch, demo passes on unchanged tree and fails with patch" % (prop, i, prop),
    "base_commit": subprocess.run(["git", "-C", "/repo", "rev-parse", "--short", "HEAD"], capture_output=True, text=True).stdout.strip(),
}
json.dump(meta, open(f"{dst}/meta.json", "w"), indent=1)
print("stored", dst)
