#!/bin/bash
# usage: mk_benign2.sh <prop> — private scratch repository /tmp/wt/B3<prop> (copy of /repo HEAD with its own .git, so that
# /repo's worktree list is not touched) + /tmp/wt/B3<prop>-out/{property.json,prompt.txt} for a third batch (functions repaired in the hunt rounds) of
# behaviour-preserving refactorings.
P=$1
D=/tmp/wt/B3$P
rm -rf $D $D-out; mkdir -p $D $D-out
(cd /repo && git archive HEAD | tar -x -C $D) && (cd $D && git init -q && git add -A && git -c user.email=a@b -c user.name=a commit -qm base) || exit 2
python3 - "$P" <<'PY'
import json,sys
p=sys.argv[1]
for l in open('/verif/properties.jsonl'):
    d=json.loads(l)
    if d['id']==p:
        json.dump(d,open('/tmp/wt/B3%s-out/property.json'%p,'w'),indent=1)
        text='%s — %s\n\n%s'%(d['id'],d['title'],d['statement'])
        t=open('/verif/tools/benign_prompt3.tmpl').read().replace('@P@',p).replace('@TEXT@',text).replace('@FOCUS@',json.load(open('/verif/tools/benign3_focus.json'))[p])
        open('/tmp/wt/B3%s-out/prompt.txt'%p,'w').write(t)
PY
