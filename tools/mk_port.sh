#!/bin/bash
# usage: mk_port.sh seeded/<id> | benign/<id> — private repository /tmp/wt/P<id> at /repo HEAD + /tmp/wt/P<id>-out with the
# recorded change, for a sub-agent that ports the patch after /repo received a repair near the same lines.
D=$1; ID=$(basename $D)
W=/tmp/wt/P$ID
rm -rf $W $W-out; mkdir -p $W $W-out
(cd /repo && git archive HEAD | tar -x -C $W) && (cd $W && git init -q && git add -A && git -c user.email=a@b -c user.name=a commit -qm base) || exit 2
cp /verif/$D/patch.diff $W-out/old.diff; cp /verif/$D/notes.md $W-out/notes.md 2>/dev/null
if [ -f /verif/$D/demo_test.go ]; then
  cp /verif/$D/demo_test.go $W-out/demo_test.go
  TF=demo_test.go; TR="a demonstration test: it PASSES on the unchanged library and FAILS when the change is applied (the change is a deliberately seeded defect)."
  VF="Verify that demo_test.go (copied into the package directory it belongs to — see its package clause) passes on the clean new tree and fails with your ported change applied."
else
  cp /verif/$D/equiv_test.go $W-out/equiv_test.go
  TF=equiv_test.go; TR="an equivalence test: the change is a behaviour-preserving refactoring and this test passes both without and with it."
  VF="Verify that equiv_test.go (copied into the package directory it belongs to — see its package clause) passes on the clean new tree and also with your ported change applied."
fi
python3 - "$ID" "$TF" "$TR" "$VF" <<'PY'
import sys
id,tf,tr,vf=sys.argv[1:5]
t=open('/verif/tools/port_prompt.tmpl').read().replace('@ID@',id).replace('@TESTFILE@',tf).replace('@TESTROLE@',tr).replace('@VERIFY@',vf)
open('/tmp/wt/P%s-out/prompt.txt'%id,'w').write(t)
PY
