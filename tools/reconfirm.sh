#!/bin/bash
# usage: reconfirm.sh <seeded-id> — re-confirm a stored mutant against /repo HEAD: demo passes clean, fails patched, patched tree builds
ID=$1; D=/verif/seeded/$ID
export GOFLAGS=-mod=mod GOPROXY=off GOSUMDB=off GOTOOLCHAIN=local
T=/tmp/wt/reconf-$ID
git -C /repo worktree add -q --detach $T HEAD || exit 2
trap 'git -C /repo worktree remove --force $T >/dev/null 2>&1' EXIT
pkgdir=$(python3 -c "import json;print(json.load(open('$D/meta.json')).get('demo_package_dir','.'))")
cp $D/demo_test.go $T/$pkgdir/zz_demo_test.go
name=$(grep -o 'func Test[A-Za-z0-9_]*' $D/demo_test.go | sed 's/func //' | paste -sd'|')
(cd $T/$pkgdir && go test -vet=off -count=1 -run "^($name)\$" . >/tmp/wt/reconf-$ID.clean 2>&1) && c=pass || c=fail
(cd $T && git apply $D/patch.diff) || { echo "$ID: PATCH DOES NOT APPLY"; exit 3; }
(cd $T && go build ./...) || { echo "$ID: DOES NOT BUILD"; exit 4; }
(cd $T/$pkgdir && go test -vet=off -count=1 -run "^($name)\$" . >/tmp/wt/reconf-$ID.patched 2>&1) && p=pass || p=fail
echo "$ID: clean=$c patched=$p"
