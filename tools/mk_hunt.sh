#!/bin/bash
# usage: mk_hunt.sh <prop> [file...] — private scratch repository /tmp/wt/H<prop> (copy of /repo HEAD plus optional top-level source files of
# not-yet-committed repair patches) + /tmp/wt/H<prop>-out/{property.json,prompt.txt} for a defect-hunting sub-agent.
P=$1; shift
D=/tmp/wt/H$P
rm -rf $D $D-out; mkdir -p $D $D-out
(cd /repo && git archive HEAD | tar -x -C $D) || exit 2
for f in "$@"; do cp "$f" $D/$(basename "$f") || exit 3; done
(cd $D && git init -q && git add -A && git -c user.email=a@b -c user.name=a commit -qm base) || exit 2
python3 - "$P" <<'PY'
import json,sys
p=sys.argv[1]
for l in open('/verif/properties.jsonl'):
    d=json.loads(l)
    if d['id']==p:
        json.dump(d,open('/tmp/wt/H%s-out/property.json'%p,'w'),indent=1)
        text='%s — %s\n\n%s'%(d['id'],d['title'],d['statement'])
        t=open('/verif/tools/hunt_prompt.tmpl').read().replace('@P@',p).replace('@TEXT@',text)
        open('/tmp/wt/H%s-out/prompt.txt'%p,'w').write(t)
PY
