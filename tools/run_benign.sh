#!/bin/bash
# usage: run_benign.sh [benign/<id> ...]   (default: all)
# Applies each stored behaviour-preserving refactoring to a scratch copy of /repo's HEAD (outside /repo and
# /verif), runs every claimed quick check on it (no evidence written) and records the checks that raise an
# alarm in benign/<id>/meta.json ("alarms": a false alarm unless triaged otherwise); benign/RESULTS.md is
# regenerated from all meta files.
cd /verif
export GOFLAGS=-mod=mod GOPROXY=off GOSUMDB=off GOTOOLCHAIN=local
PROPS=$(python3 -c "import json; print(' '.join(c['property_id'] for c in json.load(open('/verif/MANIFEST.json'))['checks']))")
run_one() {
  d=${1%/}; id=$(basename $d)
  T=/tmp/wt/benign-$id
  rm -rf $T; mkdir -p $T
  (cd /repo && git archive HEAD | tar -x -C $T) || return
  if ! (cd $T && patch -p1 -s < /verif/$d/patch.diff); then echo "$id: PATCH DOES NOT APPLY"; rm -rf $T; return; fi
  if ! (cd $T && go build ./... 2>/dev/null); then echo "$id: DOES NOT BUILD"; rm -rf $T; return; fi
  fired=""; rules=""
  for p in $PROPS; do
    out=$(timeout 600 /verif/bin/lzcheck -verif /verif -repo $T -property $p -no-evidence 2>&1)
    if echo "$out" | grep -q '^VIOLATION'; then
      fired="$fired $p"
      rules="$rules $(echo "$out" | grep -o 'R-[A-Z0-9-]*[A-Z0-9] (C' | sed 's/ (C//' | sort -u | paste -sd' ')"
    elif ! echo "$out" | grep -q '^lzcheck .* 0 failed'; then
      fired="$fired $p(BROKEN)"
    fi
  done
  rm -rf $T
  python3 - "$d" "$fired" "$rules" <<'PY'
import json,sys
d,fired,rules=sys.argv[1],sys.argv[2].split(),sorted(set(sys.argv[3].split()))
m=json.load(open(d+"/meta.json")); m["alarms"]=fired; m["alarm_rules"]=rules
m["what_was_run"]="tools/run_benign.sh: patch applied to a scratch copy of /repo HEAD (outside /repo and /verif), go build, quick check of every claimed property with -no-evidence, copy removed"
json.dump(m,open(d+"/meta.json","w"),indent=1)
PY
  echo "$id: ${fired:-silent}"
}
N=0
LIST="$@"
[ -z "$LIST" ] && LIST=$(ls -d benign/C*/)
for d in $LIST; do
  run_one $d &
  N=$((N+1))
  if [ $((N % 6)) -eq 0 ]; then wait; fi
done
wait
python3 - <<'PY'
import json,glob,os
rows=[]
for d in sorted(glob.glob('/verif/benign/C*/')):
    m=json.load(open(d+'meta.json'))
    note=''
    if os.path.exists(d+'notes.md'):
        note=open(d+'notes.md').read().strip().split('\n')[0][:160].replace('|','/')
    rows.append((os.path.basename(d.rstrip('/')),m.get('alarms',[]),m.get('alarm_rules',[]),note,m.get('triage','')))
out=['# Behaviour-preserving refactorings (sub-agent made) — which checks stay silent','',
     '| id | alarms | rules | triage | refactoring (first line of the author\'s note) |','|---|---|---|---|---|']
silent=0
for i,a,r,n,t in rows:
    if not a: silent+=1
    out.append('| %s | %s | %s | %s | %s |'%(i,' '.join(a) or 'silent',' '.join(r),t,n))
out.append('')
out.append('%d refactorings, %d leave every check silent.'%(len(rows),silent))
open('/verif/benign/RESULTS.md','w').write('\n'.join(out)+'\n')
print(out[-1])
PY
