#!/usr/bin/env python3
"""Regenerates section 7 of DESIGN.md from tools/design7_head.md + seeded/RESULTS.md + tools/design7_tail.md."""
V="/verif"
d=open(V+"/DESIGN.md").read()
marker="--------------------------------------------------------------------------\n\n## 7. Implementation status"
i=d.find(marker)
if i>=0: d=d[:i]
d=d.rstrip("\n")+"\n\n"
sec=open(V+"/tools/design7_head.md").read()+open(V+"/seeded/RESULTS.md").read()+open(V+"/tools/design7_tail.md").read()
import os
if os.path.exists(V+"/tools/design7_benign.md"):
    sec+=open(V+"/tools/design7_benign.md").read()
    if os.path.exists(V+"/benign/RESULTS.md"):
        sec+="\n"+open(V+"/benign/RESULTS.md").read().replace("# Behaviour-preserving","#### Behaviour-preserving")
if os.path.exists(V+"/tools/design7_hunt.md"):
    sec+=open(V+"/tools/design7_hunt.md").read()
if os.path.exists(V+"/tools/design7_round5.md"):
    sec+=open(V+"/tools/design7_round5.md").read()
open(V+"/DESIGN.md","w").write(d+sec)
print("DESIGN.md section 7 regenerated")
