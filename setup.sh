#!/bin/sh
# builds the analyser and the rewrite tool offline from the module cache
export GOFLAGS=-mod=mod GOPROXY=off GOSUMDB=off GOTOOLCHAIN=local
unset GOWORK
HERE="$(cd "$(dirname "$0")" && pwd)"
mkdir -p "$HERE/bin" "$HERE/evidence"
cd "$HERE/checker" && go build -o "$HERE/bin/lzcheck" . && go build -o "$HERE/bin/lzrewrite" ./cmd/lzrewrite && echo "built $HERE/bin/lzcheck $HERE/bin/lzrewrite"
