#!/bin/sh
# usage: check.sh <property> [quick|thorough]
# Decides one property by static analysis of /repo's current working tree.
export GOFLAGS=-mod=mod GOPROXY=off GOSUMDB=off GOTOOLCHAIN=local
unset GOWORK
HERE="$(cd "$(dirname "$0")" && pwd)"
PROP="$1"
TIER="${2:-${VERIF_TIER:-quick}}"
if [ ! -x "$HERE/bin/lzcheck" ] || [ -n "$(find "$HERE/checker" -maxdepth 1 -name '*.go' -newer "$HERE/bin/lzcheck" 2>/dev/null | head -1)" ]; then
  (cd "$HERE/checker" && go build -o "$HERE/bin/lzcheck" .) || { echo "lzcheck: build failed"; exit 2; }
fi
if [ "$TIER" = thorough ] && { [ ! -x "$HERE/bin/lzrewrite" ] || [ -n "$(find "$HERE/checker/cmd" -name '*.go' -newer "$HERE/bin/lzrewrite" 2>/dev/null | head -1)" ]; }; then
  (cd "$HERE/checker" && go build -o "$HERE/bin/lzrewrite" ./cmd/lzrewrite) || echo "lzrewrite: build failed (self-validation will record it)"
fi
exec "$HERE/bin/lzcheck" -verif "$HERE" -repo "${LZ_REPO:-/repo}" -property "$PROP" -tier "$TIER"
